//! Shared machinery of the cursor sweeps (C17, C18): program texts in two layouts (plain;
//! multi-byte trivia + CRLF), identifier occurrences mapped to editor positions, and the
//! enumeration of every cursor position of every file.

use crate::gen::*;
use crate::refsem::{self, Bind, Resolution};
use crate::textmodel::{LineTable, Pos};
use serde_json::Value;

pub const PREFIX: &str = "/* \u{e9}\u{1F609} */ ";

/// A program laid out as files, with its identifier occurrences in byte offsets of those
/// files and the reference binding relation.
pub struct Layout {
    pub texts: Vec<(String, String)>,
    pub occs: Vec<Occ>,
    pub constructs: Vec<(usize, usize, usize)>,
    pub reso: Resolution,
}

fn remap(text: &str, o: usize) -> usize {
    PREFIX.len() + o + text[..o].matches('\n').count()
}

/// `variant` 0: as printed; 1: every module prefixed with a multi-byte block comment and
/// with CRLF line ends.
pub fn layout(p: &Program, variant: usize) -> Layout {
    let printed = print(p);
    let reso = refsem::resolve(p, &printed);
    if variant == 0 {
        return Layout {
            texts: printed.texts.clone(),
            occs: printed.occs.clone(),
            constructs: printed.constructs.clone(),
            reso,
        };
    }
    let texts: Vec<(String, String)> = printed
        .texts
        .iter()
        .map(|(n, t)| (n.clone(), format!("{PREFIX}{}", t.replace('\n', "\r\n"))))
        .collect();
    let occs = printed
        .occs
        .iter()
        .map(|o| {
            let t = &printed.texts[o.module].1;
            Occ {
                start: remap(t, o.start),
                end: remap(t, o.end),
                whole: (remap(t, o.whole.0), remap(t, o.whole.1)),
                ..o.clone()
            }
        })
        .collect();
    let constructs = printed
        .constructs
        .iter()
        .map(|(m, s, e)| {
            let t = &printed.texts[*m].1;
            (*m, remap(t, *s), remap(t, *e))
        })
        .collect();
    Layout {
        texts,
        occs,
        constructs,
        reso,
    }
}

#[derive(Clone, Copy, Debug, PartialEq, Eq)]
pub enum At {
    /// Inside the identifier occurrence with that index.
    Occ(usize),
    /// Exactly at the end of an identifier (the language server may or may not count it).
    IdentEnd,
    /// Not in an identifier.
    Elsewhere,
}

impl Layout {
    pub fn module_index(&self, file: &str) -> Option<usize> {
        self.texts.iter().position(|(n, _)| n == file)
    }

    pub fn classify(&self, module: usize, offset: usize) -> At {
        for (i, o) in self.occs.iter().enumerate() {
            if o.module == module && o.start <= offset && offset < o.end {
                return At::Occ(i);
            }
        }
        // Reserved words and other identifier-like tokens are not occurrences; a position
        // at the end of an occurrence is left to the server's discretion.
        if self.occs.iter().any(|o| o.module == module && o.end == offset) {
            return At::IdentEnd;
        }
        At::Elsewhere
    }

    /// What the use occurrence denotes.
    pub fn binding(&self, occ: usize) -> Option<&Bind> {
        self.reso.uses.iter().find(|(u, _)| *u == occ).map(|(_, b)| b)
    }

    /// All use occurrences bound to the binder occurrence.
    pub fn uses_of(&self, binder: usize) -> Vec<usize> {
        self.reso
            .uses
            .iter()
            .filter(|(_, b)| *b == Bind::Binder(binder))
            .map(|(u, _)| *u)
            .collect()
    }

    /// Every cursor position of every file: (module, position, byte offset).
    pub fn positions(&self) -> Vec<(usize, Pos, usize)> {
        let mut out = Vec::new();
        for (mi, (_, text)) in self.texts.iter().enumerate() {
            let t = LineTable::new(text);
            for (li, (s, ce, _)) in t.lines.iter().enumerate() {
                let mut col = 0u32;
                let mut off = *s;
                for c in text[*s..*ce].chars() {
                    out.push((mi, Pos { line: li as u32, character: col }, off));
                    col += c.len_utf16() as u32;
                    off += c.len_utf8();
                }
                out.push((mi, Pos { line: li as u32, character: col }, off));
            }
        }
        out
    }
}

/// Converts an LSP range value into byte offsets of `text`; `None` when a position is not
/// exact (past the end of its line, or inside a surrogate pair).
pub fn range_offsets(text: &str, range: &Value) -> Option<(usize, usize)> {
    let t = LineTable::new(text);
    let pos = |v: &Value| -> Option<usize> {
        let p = Pos {
            line: v.get("line")?.as_u64()? as u32,
            character: v.get("character")?.as_u64()? as u32,
        };
        let (o, exact) = t.offset(p);
        // The position must denote that offset exactly (no clamping).
        if exact && t.position(o) == p {
            Some(o)
        } else {
            None
        }
    };
    Some((pos(range.get("start")?)?, pos(range.get("end")?)?))
}

/// File name (relative to the workspace folder) of a URI.
pub fn file_of_uri(uri: &str) -> String {
    uri.rsplit('/').next().unwrap_or(uri).to_owned()
}
