//! Sharded exhaustive driver.
//!
//! A check is `enumerate -> run subject -> oracle`. The enumeration is a deterministic,
//! simplest-first sequence; case `i` is handled by worker `i mod W`. Workers are child
//! processes of the parent `oalmc`, so that a subject that aborts the process (stack
//! overflow), exhausts memory or hangs is *attributed* to the case in flight and the
//! exploration carries on.

use serde::{Deserialize, Serialize};
use serde_json::{json, Value};
use std::cell::RefCell;
use std::collections::{BTreeMap, HashSet};
use std::hash::{Hash, Hasher};
use std::io::{BufRead, BufReader, Write};
use std::panic::{catch_unwind, AssertUnwindSafe};
use std::process::{Command, Stdio};
use std::sync::atomic::{AtomicU64, Ordering};
use std::sync::mpsc;
use std::time::{Duration, Instant, SystemTime, UNIX_EPOCH};

pub const VERIF_DIR: &str = "/verif";

#[derive(Clone, Copy, PartialEq, Eq, Debug)]
pub enum Tier {
    Quick,
    Thorough,
}

impl Tier {
    pub fn name(&self) -> &'static str {
        match self {
            Tier::Quick => "quick",
            Tier::Thorough => "thorough",
        }
    }
    pub fn parse(s: &str) -> Option<Tier> {
        match s {
            "quick" => Some(Tier::Quick),
            "thorough" => Some(Tier::Thorough),
            _ => None,
        }
    }
}

/// One bound of an engine, explored completely before the next one starts.
#[derive(Clone, Debug)]
pub struct Phase {
    pub name: String,
    /// Engine-specific parameters of the bound.
    pub param: Value,
    /// Number of shards that are useful for this phase (process-heavy phases use fewer).
    pub max_workers: usize,
}

impl Phase {
    pub fn new(name: &str, param: Value) -> Phase {
        Phase {
            name: name.to_owned(),
            param,
            max_workers: 16,
        }
    }
    pub fn workers(mut self, n: usize) -> Phase {
        self.max_workers = n;
        self
    }
}

#[derive(Serialize, Deserialize, Clone, Debug)]
pub struct Violation {
    /// Identifies the failure class: (kind, call site or output location, cause class).
    pub signature: String,
    pub summary: String,
    /// Everything needed to re-run exactly this case without the explorer.
    pub case: Value,
    #[serde(default)]
    pub idx: u64,
    #[serde(default)]
    pub phase: String,
}

#[derive(Default, Serialize, Deserialize, Clone, Debug)]
pub struct Stats {
    pub cases: u64,
    pub hist: BTreeMap<String, u64>,
    pub counters: BTreeMap<String, u64>,
    /// Hashes of the distinct non-trivial outcome classes seen (delta since last flush).
    pub distinct: Vec<u64>,
    pub samples: Vec<Value>,
    pub violations: Vec<Violation>,
    #[serde(default)]
    pub complete: bool,
}

impl Stats {
    fn merge(&mut self, other: Stats) {
        self.cases += other.cases;
        for (k, v) in other.hist {
            *self.hist.entry(k).or_default() += v;
        }
        for (k, v) in other.counters {
            *self.counters.entry(k).or_default() += v;
        }
        self.distinct.extend(other.distinct);
        self.samples.extend(other.samples);
        self.violations.extend(other.violations);
    }
}

/// What the oracle concluded for one case.
pub struct Outcome {
    /// Histogram key (outcome class name).
    pub tag: &'static str,
    /// Hash of the canonical observable outcome, for counting distinct outcomes.
    /// `None` marks the case as trivial (not counted in distinct_nontrivial).
    pub class: Option<u64>,
    pub violation: Option<Violation>,
}

impl Outcome {
    pub fn ok(tag: &'static str, class: Option<u64>) -> Outcome {
        Outcome {
            tag,
            class,
            violation: None,
        }
    }
    pub fn bad(tag: &'static str, signature: String, summary: String, case: Value) -> Outcome {
        Outcome {
            tag,
            class: None,
            violation: Some(Violation {
                signature,
                summary,
                case,
                idx: 0,
                phase: String::new(),
            }),
        }
    }
}

pub fn hash_of<T: Hash + ?Sized>(t: &T) -> u64 {
    // DefaultHasher::new() uses fixed keys: deterministic across processes.
    #[allow(deprecated)]
    let mut h = std::hash::SipHasher::new();
    t.hash(&mut h);
    h.finish()
}

// ---------------------------------------------------------------------------
// Panic capture

#[derive(Clone, Debug, Serialize, Deserialize, PartialEq, Eq)]
pub struct PanicInfo {
    pub message: String,
    pub location: String,
}

thread_local! {
    static LAST_PANIC: RefCell<Option<PanicInfo>> = const { RefCell::new(None) };
}

pub fn install_panic_hook() {
    std::panic::set_hook(Box::new(|info| {
        let message = if let Some(s) = info.payload().downcast_ref::<&str>() {
            (*s).to_owned()
        } else if let Some(s) = info.payload().downcast_ref::<String>() {
            s.clone()
        } else {
            "<non-string panic payload>".to_owned()
        };
        let location = info
            .location()
            .map(|l| format!("{}:{}", l.file(), l.line()))
            .unwrap_or_default();
        LAST_PANIC.with(|p| *p.borrow_mut() = Some(PanicInfo { message, location }));
    }));
}

/// Runs the subject, turning a panic into a value.
pub fn guard<T>(f: impl FnOnce() -> T) -> Result<T, PanicInfo> {
    LAST_PANIC.with(|p| *p.borrow_mut() = None);
    match catch_unwind(AssertUnwindSafe(f)) {
        Ok(v) => Ok(v),
        Err(_) => Err(LAST_PANIC
            .with(|p| p.borrow_mut().take())
            .unwrap_or(PanicInfo {
                message: "<unknown panic>".into(),
                location: String::new(),
            })),
    }
}

/// Short, stable name of a panic site: file name relative to the repository and the
/// first words of the message (line numbers are deliberately left out).
pub fn panic_site(p: &PanicInfo) -> String {
    let file = p
        .location
        .rsplit_once(':')
        .map(|(f, _)| f)
        .unwrap_or(&p.location);
    let file = file.strip_prefix("/repo/").unwrap_or(file);
    let file = match file.find("/registry/src/") {
        Some(i) => {
            let rest = &file[i + "/registry/src/".len()..];
            rest.split_once('/').map(|(_, r)| r).unwrap_or(rest)
        }
        None => file,
    };
    let msg: String = p
        .message
        .chars()
        .take_while(|c| *c != ':' && *c != '\n')
        .take(60)
        .collect();
    format!("{file} \"{msg}\"")
}

// ---------------------------------------------------------------------------
// Worker side

static IN_FLIGHT: AtomicU64 = AtomicU64::new(u64::MAX);
static IN_FLIGHT_SINCE_MS: AtomicU64 = AtomicU64::new(0);
static CASE_BUDGET_MS: AtomicU64 = AtomicU64::new(10_000);

/// Monotonic milliseconds since the process started (immune to wall-clock steps).
fn mono_ms() -> u64 {
    use std::sync::OnceLock;
    static START: OnceLock<Instant> = OnceLock::new();
    START.get_or_init(Instant::now).elapsed().as_millis() as u64
}

fn now_ms() -> u64 {
    SystemTime::now()
        .duration_since(UNIX_EPOCH)
        .unwrap()
        .as_millis() as u64
}

/// A case that runs the subject many times (a search from one seed, a long session) calls
/// this before each run of the subject: the watchdog then measures one run, not the case.
pub fn heartbeat() {
    IN_FLIGHT_SINCE_MS.store(mono_ms(), Ordering::SeqCst);
}

pub enum Mode {
    Run,
    Describe(u64),
    /// Run exactly one case (used by the parent to confirm a reported hang).
    Only(u64),
}

pub struct Sink {
    pub shard: u64,
    pub nshards: u64,
    pub from: u64,
    pub careful: bool,
    pub seed: u64,
    pub mode: Mode,
    /// Cases already accounted for by the parent (confirmed hangs, stalls re-run alone).
    skip: Vec<u64>,
    deadline_ms: u64,
    stats: Stats,
    seen: HashSet<u64>,
    last_flush: Instant,
    last_done: Option<u64>,
    expired: bool,
    pub described: Option<Value>,
}

impl Sink {
    /// True when the case with global index `idx` belongs to this worker.
    pub fn mine(&self, idx: u64) -> bool {
        match self.mode {
            Mode::Describe(i) | Mode::Only(i) => i == idx,
            Mode::Run => idx >= self.from && idx % self.nshards == self.shard && !self.skip.contains(&idx),
        }
    }

    /// `Some(i)` when this worker handles the single case `i` (describe / confirm modes):
    /// index-addressable engines jump straight to it.
    pub fn single(&self) -> Option<u64> {
        match self.mode {
            Mode::Describe(i) | Mode::Only(i) => Some(i),
            Mode::Run => None,
        }
    }

    /// True once the wall-clock cap was reached: the engine must stop enumerating.
    pub fn expired(&mut self) -> bool {
        if let Mode::Describe(_) = self.mode {
            return self.described.is_some();
        }
        if let Mode::Only(_) = self.mode {
            return self.last_done.is_some();
        }
        if !self.expired && now_ms() > self.deadline_ms {
            self.expired = true;
        }
        self.expired
    }

    pub fn wants_sample(&self, idx: u64) -> bool {
        idx < 2 || hash_of(&(idx, self.seed)) % 8192 == 0
    }

    pub fn count(&mut self, key: &str, n: u64) {
        *self.stats.counters.entry(key.to_owned()).or_default() += n;
    }

    pub fn sample(&mut self, v: Value) {
        if self.stats.samples.len() < 4 {
            self.stats.samples.push(v);
        }
    }

    /// Visits one case: `describe` renders it as JSON (replay input), `run` executes the
    /// subject and the oracle.
    pub fn visit(
        &mut self,
        idx: u64,
        describe: impl Fn() -> Value,
        run: impl FnOnce(&mut Sink) -> Outcome,
    ) {
        if !self.mine(idx) {
            return;
        }
        if let Mode::Describe(_) = self.mode {
            self.described = Some(describe());
            return;
        }
        if self.expired() {
            return;
        }
        IN_FLIGHT_SINCE_MS.store(mono_ms(), Ordering::SeqCst);
        IN_FLIGHT.store(idx, Ordering::SeqCst);
        if self.careful {
            let mut o = std::io::stdout().lock();
            let _ = writeln!(o, "B {idx}");
            let _ = o.flush();
        }
        // Self-test of the hang handling: OALMC_TEST_STALL=<idx> makes the worker that meets
        // that case in normal mode sleep past the watchdog (a stall, not a real hang).
        if let Mode::Run = self.mode {
            if std::env::var("OALMC_TEST_STALL").ok().and_then(|v| v.parse::<u64>().ok()) == Some(idx) {
                std::thread::sleep(Duration::from_millis(CASE_BUDGET_MS.load(Ordering::SeqCst) + 1500));
            }
        }
        let res = catch_unwind(AssertUnwindSafe(|| run(self)));
        IN_FLIGHT.store(u64::MAX, Ordering::SeqCst);
        let outcome = match res {
            Ok(o) => o,
            Err(_) => {
                // A panic outside `guard` is a bug of the harness, never a verdict.
                let p = LAST_PANIC.with(|p| p.borrow_mut().take());
                let mut o = std::io::stdout().lock();
                let _ = writeln!(
                    o,
                    "E harness panic at case {idx}: {:?} case={}",
                    p,
                    describe()
                );
                let _ = o.flush();
                std::process::exit(2);
            }
        };
        self.stats.cases += 1;
        *self.stats.hist.entry(outcome.tag.to_owned()).or_default() += 1;
        if let Some(c) = outcome.class {
            if self.seen.insert(c) {
                self.stats.distinct.push(c);
            }
        }
        if self.wants_sample(idx) && self.stats.samples.len() < 4 {
            self.stats
                .samples
                .push(json!({"index": idx, "outcome": outcome.tag, "case": describe()}));
        }
        let force = outcome.violation.is_some();
        if let Some(mut v) = outcome.violation {
            v.idx = idx;
            // Keep the replay input authoritative: the described case.
            if v.case.is_null() {
                v.case = describe();
            }
            self.stats.violations.push(v);
        }
        self.last_done = Some(idx);
        if force || self.careful || self.last_flush.elapsed() > Duration::from_millis(300) {
            self.flush(false);
        }
    }

    fn flush(&mut self, done: bool) {
        let mut st = std::mem::take(&mut self.stats);
        st.complete = done && !self.expired;
        let idx = self.last_done.map(|i| i as i64).unwrap_or(-1);
        let mut o = std::io::stdout().lock();
        let _ = writeln!(
            o,
            "{} {} {}",
            if done { "D" } else { "K" },
            idx,
            serde_json::to_string(&st).unwrap()
        );
        let _ = o.flush();
        self.last_flush = Instant::now();
    }
}

pub trait Engine: Sync {
    fn id(&self) -> &'static str;
    fn engine_name(&self) -> &'static str;
    /// The bounds explored by the tier, in order.
    fn phases(&self, tier: Tier) -> Vec<Phase>;
    /// Enumerates the phase; every case goes through `sink.visit`.
    fn run_phase(&self, phase: &Phase, sink: &mut Sink);
    /// Re-runs one described case in-process, returns the oracle's verdict.
    fn replay(&self, case: &Value) -> Outcome;
    /// How cases are generated and what makes one non-trivial (evidence `rule`).
    fn rule(&self) -> String;
    fn assumptions(&self) -> Vec<String> {
        vec![]
    }
    /// Wall-clock budget of the whole tier, in seconds.
    fn budget_s(&self, tier: Tier) -> u64 {
        match tier {
            Tier::Quick => 90,
            Tier::Thorough => 1500,
        }
    }
    /// Per-case watchdog, in milliseconds.
    fn case_budget_ms(&self) -> u64 {
        10_000
    }
    /// Signature of a crash (abort / hang) of the described case.
    fn crash_signature(&self, kind: &str, _case: &Value) -> String {
        kind.to_owned()
    }
    /// Maps merged counters to the model-checking evidence keys.
    fn state_counters(&self, _merged: &Stats) -> Option<(u64, u64, u64)> {
        None
    }
}

fn set_rlimit_as(bytes: u64) {
    unsafe {
        let lim = libc::rlimit {
            rlim_cur: bytes,
            rlim_max: bytes,
        };
        libc::setrlimit(libc::RLIMIT_AS, &lim);
    }
}

/// Entry point of a worker process.
pub fn worker_main(engine: &dyn Engine, args: &[String]) -> i32 {
    // worker <prop> <tier> <phase> <shard> <nshards> <from> <careful> <deadline_ms> | describe ... <idx>
    let tier = Tier::parse(&args[0]).expect("tier");
    let phase_idx: usize = args[1].parse().unwrap();
    let shard: u64 = args[2].parse().unwrap();
    let nshards: u64 = args[3].parse().unwrap();
    let from: u64 = args[4].parse().unwrap();
    let careful = args[5] == "1";
    let deadline_ms: u64 = args[6].parse().unwrap();
    let describe: Option<u64> = args.get(7).and_then(|s| s.parse().ok());
    let only: Option<u64> = args.get(7).and_then(|s| s.strip_prefix("only:")).and_then(|s| s.parse().ok());
    let skip: Vec<u64> = args
        .iter()
        .filter_map(|s| s.strip_prefix("skip:"))
        .flat_map(|s| s.split(',').filter_map(|x| x.parse().ok()).collect::<Vec<u64>>())
        .collect();
    let seed: u64 = std::env::var("VERIF_SEED")
        .ok()
        .and_then(|s| s.parse().ok())
        .unwrap_or(0);

    let mem_gb: u64 = std::env::var("OALMC_WORKER_MEM_GB")
        .ok()
        .and_then(|s| s.parse().ok())
        .unwrap_or(4);
    set_rlimit_as(mem_gb << 30);
    // Make oal_wasm::compile install its panic hook first, then install ours.
    let _ = oal_wasm::compile("");
    install_panic_hook();
    CASE_BUDGET_MS.store(engine.case_budget_ms(), Ordering::SeqCst);

    let phases = engine.phases(tier);
    let phase = phases[phase_idx].clone();

    // Watchdog: a case in flight for longer than the budget is reported as a hang.
    if describe.is_none() {
        std::thread::spawn(|| {
            let mut last_alive = mono_ms();
            loop {
            std::thread::sleep(Duration::from_millis(200));
            let idx = IN_FLIGHT.load(Ordering::SeqCst);
            // A long multi-run case (a search that calls `heartbeat`) says so every 20 s, so
            // that the parent can tell a working shard from a dead one.
            if mono_ms().saturating_sub(last_alive) > 20_000 {
                last_alive = mono_ms();
                let mut o = std::io::stdout().lock();
                let _ = writeln!(o, "A {idx}");
                let _ = o.flush();
            }
            if idx != u64::MAX {
                let since = IN_FLIGHT_SINCE_MS.load(Ordering::SeqCst);
                if mono_ms().saturating_sub(since) > CASE_BUDGET_MS.load(Ordering::SeqCst)
                    && IN_FLIGHT.load(Ordering::SeqCst) == idx
                {
                    let mut o = std::io::stdout().lock();
                    let _ = writeln!(o, "H {idx}");
                    let _ = o.flush();
                    std::process::exit(3);
                }
            }
            }
        });
    }

    let mut sink = Sink {
        shard,
        nshards,
        from,
        careful,
        seed,
        mode: match (describe, only) {
            (Some(i), _) => Mode::Describe(i),
            (None, Some(i)) => Mode::Only(i),
            (None, None) => Mode::Run,
        },
        skip,
        deadline_ms,
        stats: Stats::default(),
        seen: HashSet::new(),
        last_flush: Instant::now(),
        last_done: None,
        expired: false,
        described: None,
    };

    // The subject runs on a thread with an 8 MiB stack, the size of the main thread
    // on which the real binaries run it.
    let sink = std::thread::scope(|s| {
        std::thread::Builder::new()
            .stack_size(8 << 20)
            .spawn_scoped(s, || {
                engine.run_phase(&phase, &mut sink);
                sink
            })
            .unwrap()
            .join()
    });
    let mut sink = match sink {
        Ok(s) => s,
        Err(_) => {
            println!("E worker thread panicked outside a case");
            return 2;
        }
    };
    if describe.is_some() {
        println!(
            "C {}",
            serde_json::to_string(&sink.described.unwrap_or(Value::Null)).unwrap()
        );
        return 0;
    }
    sink.flush(true);
    0
}

// ---------------------------------------------------------------------------
// Parent side

enum Event {
    Line(usize, String),
    Exit(usize, Option<i32>, Option<i32>), // shard, code, signal
}

struct ShardState {
    /// Cases of this shard that the parent has already accounted for.
    skip: Vec<u64>,
    from: u64,
    careful: bool,
    sticky_careful: bool,
    last_begin: Option<u64>,
    hang: Option<u64>,
    done: bool,
    aborts: u32,
    child: Option<std::process::Child>,
}

pub struct PhaseReport {
    pub name: String,
    pub param: Value,
    pub complete: bool,
    pub cases: u64,
    pub wall_s: f64,
}

pub struct RunReport {
    pub merged: Stats,
    pub phases: Vec<PhaseReport>,
    pub distinct: HashSet<u64>,
    pub machinery_error: Option<String>,
    pub capped: bool,
}

fn spawn_worker(
    engine: &dyn Engine,
    tier: Tier,
    phase_idx: usize,
    shard: usize,
    nshards: usize,
    st: &ShardState,
    deadline_ms: u64,
    tx: &mpsc::Sender<Event>,
) -> std::io::Result<std::process::Child> {
    let exe = std::env::current_exe()?;
    let mut child = Command::new(exe)
        .arg("worker")
        .arg(engine.id())
        .arg(tier.name())
        .arg(phase_idx.to_string())
        .arg(shard.to_string())
        .arg(nshards.to_string())
        .arg(st.from.to_string())
        .arg(if st.careful { "1" } else { "0" })
        .arg(deadline_ms.to_string())
        .arg(format!(
            "skip:{}",
            st.skip.iter().map(|x| x.to_string()).collect::<Vec<_>>().join(",")
        ))
        .stdin(Stdio::null())
        .stdout(Stdio::piped())
        .stderr(Stdio::null())
        .spawn()?;
    let out = child.stdout.take().unwrap();
    let tx = tx.clone();
    std::thread::spawn(move || {
        let rd = BufReader::new(out);
        for line in rd.lines() {
            match line {
                Ok(l) => {
                    if tx.send(Event::Line(shard, l)).is_err() {
                        return;
                    }
                }
                Err(_) => break,
            }
        }
        // EOF: the parent reaps the child and learns how it ended.
        let _ = tx.send(Event::Exit(shard, None, None));
    });
    Ok(child)
}

pub fn describe_case(engine: &dyn Engine, tier: Tier, phase_idx: usize, idx: u64) -> Value {
    let exe = std::env::current_exe().unwrap();
    let out = Command::new(exe)
        .arg("worker")
        .arg(engine.id())
        .arg(tier.name())
        .arg(phase_idx.to_string())
        .args(["0", "1", "0", "0", &u64::MAX.to_string(), &idx.to_string()])
        .stderr(Stdio::null())
        .output();
    if let Ok(out) = out {
        for l in String::from_utf8_lossy(&out.stdout).lines() {
            if let Some(rest) = l.strip_prefix("C ") {
                if let Ok(v) = serde_json::from_str(rest) {
                    return v;
                }
            }
        }
    }
    Value::Null
}

enum Confirm {
    Completed(Stats),
    Hang,
    Died(String),
}

/// Re-runs one case alone in a fresh worker.
fn confirm_case(engine: &dyn Engine, tier: Tier, phase_idx: usize, idx: u64) -> Confirm {
    let exe = match std::env::current_exe() {
        Ok(e) => e,
        Err(_) => return Confirm::Hang,
    };
    let out = Command::new(exe)
        .arg("worker")
        .arg(engine.id())
        .arg(tier.name())
        .arg(phase_idx.to_string())
        .args(["0", "1", "0", "0", &u64::MAX.to_string(), &format!("only:{idx}")])
        .stderr(Stdio::null())
        .output();
    let Ok(out) = out else { return Confirm::Hang };
    use std::os::unix::process::ExitStatusExt;
    let text = String::from_utf8_lossy(&out.stdout);
    let mut stats = Stats::default();
    let mut done = false;
    for l in text.lines() {
        if l.starts_with("H ") {
            return Confirm::Hang;
        }
        if let Some(rest) = l.strip_prefix("K ").or_else(|| l.strip_prefix("D ")) {
            if let Some((_, js)) = rest.split_once(' ') {
                if let Ok(st) = serde_json::from_str::<Stats>(js) {
                    stats.merge(st);
                }
            }
            if l.starts_with("D ") {
                done = true;
            }
        }
    }
    if let Some(sig) = out.status.signal() {
        return Confirm::Died(format!("abort({})", signal_name(sig)));
    }
    if done && stats.cases >= 1 {
        Confirm::Completed(stats)
    } else {
        Confirm::Hang
    }
}

fn signal_name(sig: i32) -> String {
    match sig {
        6 => "SIGABRT".into(),
        9 => "SIGKILL".into(),
        11 => "SIGSEGV".into(),
        7 => "SIGBUS".into(),
        4 => "SIGILL".into(),
        n => format!("signal {n}"),
    }
}

pub fn explore(engine: &dyn Engine, tier: Tier) -> RunReport {
    let t0 = Instant::now();
    let budget = std::env::var("OALMC_BUDGET_S")
        .ok()
        .and_then(|s| s.parse().ok())
        .unwrap_or_else(|| engine.budget_s(tier));
    let deadline_ms = now_ms() + budget * 1000;
    let ncpu = std::thread::available_parallelism()
        .map(|n| n.get())
        .unwrap_or(4)
        .min(16);
    let mut report = RunReport {
        merged: Stats::default(),
        phases: vec![],
        distinct: HashSet::new(),
        machinery_error: None,
        capped: false,
    };

    let phases = engine.phases(tier);
    'phases: for (phase_idx, phase) in phases.iter().enumerate() {
        if now_ms() > deadline_ms {
            report.capped = true;
            report.phases.push(PhaseReport {
                name: phase.name.clone(),
                param: phase.param.clone(),
                complete: false,
                cases: 0,
                wall_s: 0.0,
            });
            continue;
        }
        let tp = Instant::now();
        let nshards = ncpu.min(phase.max_workers).max(1);
        let (tx, rx) = mpsc::channel::<Event>();
        let mut shards: Vec<ShardState> = (0..nshards)
            .map(|_| ShardState {
                skip: Vec::new(),
                from: 0,
                careful: false,
                sticky_careful: false,
                last_begin: None,
                hang: None,
                done: false,
                aborts: 0,
                child: None,
            })
            .collect();
        for s in 0..nshards {
            match spawn_worker(engine, tier, phase_idx, s, nshards, &shards[s], deadline_ms, &tx) {
                Ok(c) => shards[s].child = Some(c),
                Err(e) => {
                    report.machinery_error = Some(format!("cannot spawn worker: {e}"));
                    break 'phases;
                }
            }
        }
        let mut phase_cases = 0u64;
        let mut phase_complete = true;
        let mut live = nshards;
        while live > 0 {
            let ev = match rx.recv_timeout(Duration::from_secs(
                engine.case_budget_ms() / 1000 + 120,
            )) {
                Ok(e) => e,
                Err(_) => {
                    report.machinery_error = Some("workers silent for too long".into());
                    for s in shards.iter_mut() {
                        if let Some(c) = s.child.as_mut() {
                            let _ = c.kill();
                        }
                    }
                    break 'phases;
                }
            };
            match ev {
                Event::Line(s, line) => {
                    let (kind, rest) = line.split_at(1.min(line.len()));
                    let rest = rest.trim_start();
                    match kind {
                        "B" => shards[s].last_begin = rest.parse().ok(),
                        "H" => shards[s].hang = rest.parse().ok(),
                        "K" | "D" => {
                            let (idx, js) = rest.split_once(' ').unwrap_or((rest, "{}"));
                            let idx: i64 = idx.parse().unwrap_or(-1);
                            match serde_json::from_str::<Stats>(js) {
                                Ok(mut st) => {
                                    if idx >= 0 {
                                        shards[s].from = idx as u64 + 1;
                                        shards[s].last_begin = None;
                                    }
                                    phase_cases += st.cases;
                                    for d in st.distinct.drain(..) {
                                        report.distinct.insert(d);
                                    }
                                    for v in st.violations.iter_mut() {
                                        v.phase = phase.name.clone();
                                    }
                                    if kind == "D" {
                                        shards[s].done = true;
                                        if !st.complete {
                                            phase_complete = false;
                                            report.capped = true;
                                        }
                                    }
                                    report.merged.merge(st);
                                }
                                Err(e) => {
                                    report.machinery_error =
                                        Some(format!("malformed worker line: {e}"));
                                }
                            }
                        }
                        "E" => {
                            report.machinery_error = Some(rest.to_owned());
                        }
                        _ => {}
                    }
                }
                Event::Exit(s, _, _) => {
                    let status = shards[s].child.take().and_then(|mut c| c.wait().ok());
                    if shards[s].done {
                        live -= 1;
                        continue;
                    }
                    if report.machinery_error.is_some() {
                        live -= 1;
                        continue;
                    }
                    use std::os::unix::process::ExitStatusExt;
                    let sig = status.and_then(|st| st.signal());
                    let code = status.and_then(|st| st.code());
                    let mut respawn = true;
                    let mut hang = shards[s].hang.take();
                    if let Some(h) = hang {
                        // A machine-wide stall also looks like a hang: run the case once more,
                        // alone, before believing the watchdog.
                        match confirm_case(engine, tier, phase_idx, h) {
                            Confirm::Completed(mut st) => {
                                phase_cases += st.cases;
                                for d in st.distinct.drain(..) {
                                    report.distinct.insert(d);
                                }
                                for v in st.violations.iter_mut() {
                                    v.phase = phase.name.clone();
                                }
                                *st.counters.entry("hangs not confirmed on re-run".into()).or_default() += 1;
                                report.merged.merge(st);
                                shards[s].skip.push(h);
                                hang = None;
                                // fall through to the respawn below
                                shards[s].careful = shards[s].sticky_careful;
                            }
                            Confirm::Hang => {}
                            Confirm::Died(sig) => {
                                let case = describe_case(engine, tier, phase_idx, h);
                                report.merged.cases += 1;
                                phase_cases += 1;
                                *report.merged.hist.entry("abort".into()).or_default() += 1;
                                report.merged.violations.push(Violation {
                                    signature: engine.crash_signature(&sig, &case),
                                    summary: format!("worker process died with {sig} while re-running this case alone"),
                                    case,
                                    idx: h,
                                    phase: phase.name.clone(),
                                });
                                shards[s].skip.push(h);
                                shards[s].aborts += 1;
                                hang = None;
                            }
                        }
                    }
                    if let Some(h) = hang {
                        // Hang attributed by the worker's own watchdog and confirmed.
                        let case = describe_case(engine, tier, phase_idx, h);
                        report.merged.cases += 1;
                        phase_cases += 1;
                        *report.merged.hist.entry("hang".into()).or_default() += 1;
                        report.merged.violations.push(Violation {
                            signature: engine.crash_signature("hang", &case),
                            summary: format!(
                                "no answer within {} ms",
                                engine.case_budget_ms()
                            ),
                            case,
                            idx: h,
                            phase: phase.name.clone(),
                        });
                        shards[s].skip.push(h);
                        shards[s].aborts += 1;
                    } else if code == Some(3) {
                        // hang not confirmed or turned into an abort: already accounted for
                    } else if code == Some(2) {
                        if report.machinery_error.is_none() {
                            report.machinery_error = Some("worker reported a harness error".into());
                        }
                        respawn = false;
                    } else if !shards[s].careful {
                        // Died without telling which case: re-run from the last checkpoint,
                        // announcing every case before it starts.
                        shards[s].careful = true;
                        shards[s].last_begin = None;
                    } else if let Some(b) = shards[s].last_begin.take() {
                        let kind = match sig {
                            Some(sg) => format!("abort({})", signal_name(sg)),
                            None => format!("exit({})", code.unwrap_or(-1)),
                        };
                        let case = describe_case(engine, tier, phase_idx, b);
                        report.merged.cases += 1;
                        phase_cases += 1;
                        *report.merged.hist.entry("abort".into()).or_default() += 1;
                        report.merged.violations.push(Violation {
                            signature: engine.crash_signature(&kind, &case),
                            summary: format!("worker process died with {kind} while running this case"),
                            case,
                            idx: b,
                            phase: phase.name.clone(),
                        });
                        shards[s].from = b + 1;
                        shards[s].aborts += 1;
                        if shards[s].aborts >= 10 {
                            shards[s].sticky_careful = true;
                        }
                        shards[s].careful = shards[s].sticky_careful;
                    } else {
                        report.machinery_error = Some(format!(
                            "worker {s} of phase {} died (code {code:?}, signal {sig:?}) before starting a case",
                            phase.name
                        ));
                        respawn = false;
                    }
                    if shards[s].aborts >= 100 {
                        // Too many crashing cases: stop this shard, the phase is capped.
                        phase_complete = false;
                        report.capped = true;
                        respawn = false;
                    }
                    if respawn {
                        match spawn_worker(
                            engine, tier, phase_idx, s, nshards, &shards[s], deadline_ms, &tx,
                        ) {
                            Ok(c) => shards[s].child = Some(c),
                            Err(e) => {
                                report.machinery_error =
                                    Some(format!("cannot respawn worker: {e}"));
                                live -= 1;
                            }
                        }
                    } else {
                        live -= 1;
                    }
                }
            }
        }
        report.phases.push(PhaseReport {
            name: phase.name.clone(),
            param: phase.param.clone(),
            complete: phase_complete && report.machinery_error.is_none(),
            cases: phase_cases,
            wall_s: tp.elapsed().as_secs_f64(),
        });
        if report.machinery_error.is_some() {
            break;
        }
    }
    let _ = t0;
    report
}

// ---------------------------------------------------------------------------
// Known findings, replay files, evidence, verdict

#[derive(Deserialize, Debug, Clone)]
pub struct Finding {
    pub status: String,
    pub property: String,
    #[serde(default)]
    pub signature: String,
    #[serde(default)]
    pub what: String,
    #[serde(default)]
    pub commit: String,
}

#[derive(Deserialize, Debug, Default)]
pub struct Findings {
    pub findings: Vec<Finding>,
}

pub fn load_findings() -> Findings {
    let p = format!("{VERIF_DIR}/known-findings.json");
    match std::fs::read_to_string(&p) {
        Ok(s) => serde_json::from_str(&s).unwrap_or_else(|e| {
            eprintln!("oalmc: cannot parse {p}: {e}");
            std::process::exit(2)
        }),
        Err(_) => Findings::default(),
    }
}

pub fn write_replay(id: &str, v: &Violation) -> String {
    let dir = format!("{VERIF_DIR}/replays/{id}");
    let _ = std::fs::create_dir_all(&dir);
    let h = hash_of(&(v.signature.as_str(), serde_json::to_string(&v.case).unwrap()));
    let path = format!("{dir}/{h:016x}.json");
    let body = json!({
        "property": id,
        "signature": v.signature,
        "summary": v.summary,
        "phase": v.phase,
        "index": v.idx,
        "case": v.case,
    });
    let _ = std::fs::write(&path, serde_json::to_string_pretty(&body).unwrap());
    path
}

pub fn check_main(engine: &dyn Engine, tier: Tier) -> i32 {
    let t0 = Instant::now();
    let seed: i64 = std::env::var("VERIF_SEED")
        .ok()
        .and_then(|s| s.parse().ok())
        .unwrap_or(0);
    let report = explore(engine, tier);
    let id = engine.id();

    if let Some(err) = &report.machinery_error {
        eprintln!("oalmc: machinery error in {id}: {err}");
        println!("MACHINERY-ERROR property={id} {err}");
        return 2;
    }

    // Split violations into known findings and new ones.
    let findings = load_findings();
    let mut known: BTreeMap<String, (String, u64)> = BTreeMap::new();
    let mut fresh: BTreeMap<String, Vec<&Violation>> = BTreeMap::new();
    for v in report.merged.violations.iter() {
        if let Some(f) = findings
            .findings
            .iter()
            .find(|f| f.status == "known" && f.property == id && f.signature == v.signature)
        {
            let e = known
                .entry(v.signature.clone())
                .or_insert((f.what.clone(), 0));
            e.1 += 1;
        } else {
            fresh.entry(v.signature.clone()).or_default().push(v);
        }
    }

    let total_cases = report.merged.cases;
    let completed: Vec<&PhaseReport> = report.phases.iter().filter(|p| p.complete).collect();
    let exhaustive = report.phases.iter().all(|p| p.complete);
    let mut coverage = json!({
        "evaluations": total_cases,
        "distinct_nontrivial": report.distinct.len(),
        "rule": engine.rule(),
        "samples": report.merged.samples.iter().take(8).collect::<Vec<_>>(),
        "exhaustive": exhaustive,
        "histogram": report.merged.hist,
        "counters": report.merged.counters,
        "bounds": report.phases.iter().map(|p| json!({
            "bound": p.name, "param": p.param, "completed": p.complete, "cases": p.cases, "wall_s": (p.wall_s*100.0).round()/100.0
        })).collect::<Vec<_>>(),
        "last_bound_completed": completed.last().map(|p| p.name.clone()),
        "wall_clock_cap_hit": report.capped,
        "engine": engine.engine_name(),
        "known_findings_seen": known.iter().map(|(k,(w,n))| json!({"signature":k,"what":w,"cases":n})).collect::<Vec<_>>(),
    });
    if let Some((states, transitions, traces)) = engine.state_counters(&report.merged) {
        coverage["states"] = json!(states);
        coverage["transitions"] = json!(transitions);
        coverage["traces_validated_against_impl"] = json!(traces);
    }
    if coverage["samples"].as_array().map_or(true, |a| a.is_empty()) {
        coverage["samples"] = json!([{"note": "no case executed"}]);
    }
    let nviol: usize = fresh.values().map(|v| v.len()).sum();
    let evidence = json!({
        "property_id": id,
        "tier": tier.name(),
        "seed": seed,
        "level": "model_checking",
        "coverage": coverage,
        "assumptions": engine.assumptions(),
        "wall_s": (t0.elapsed().as_secs_f64()*100.0).round()/100.0,
        "violations": nviol,
    });
    let _ = std::fs::create_dir_all(format!("{VERIF_DIR}/evidence"));
    let epath = format!("{VERIF_DIR}/evidence/{id}.json");
    if let Err(e) = std::fs::write(&epath, serde_json::to_string_pretty(&evidence).unwrap()) {
        eprintln!("oalmc: cannot write evidence: {e}");
        return 2;
    }

    println!(
        "{id} {}: {} cases, {} distinct outcomes, bounds completed {}/{}{}, {:.1}s",
        tier.name(),
        total_cases,
        report.distinct.len(),
        completed.len(),
        report.phases.len(),
        if report.capped { " (wall-clock cap hit)" } else { "" },
        t0.elapsed().as_secs_f64()
    );
    for (k, v) in report.merged.hist.iter() {
        println!("  outcome {k}: {v}");
    }
    for (sig, (what, n)) in known.iter() {
        println!("KNOWN-FINDING: property={id} {what} [{sig}] ({n} cases)");
    }
    if fresh.is_empty() {
        return 0;
    }
    for (sig, vs) in fresh.iter() {
        for v in vs.iter().take(3) {
            let path = write_replay(id, v);
            println!("VIOLATION property={id} replay={path}");
        }
        println!(
            "  signature: {sig} ({} cases), e.g. {}",
            vs.len(),
            vs[0].summary.replace('\n', " ")
        );
    }
    1
}

pub fn replay_main(engine: &'static dyn Engine, path: &str) -> i32 {
    let body: Value = match std::fs::read_to_string(path)
        .ok()
        .and_then(|s| serde_json::from_str(&s).ok())
    {
        Some(v) => v,
        None => {
            eprintln!("oalmc: cannot read replay file {path}");
            return 2;
        }
    };
    // Run in a child so that an aborting subject is observed, twice.
    if std::env::var("OALMC_REPLAY_CHILD").is_err() {
        let exe = std::env::current_exe().unwrap();
        let mut obs = vec![];
        for _ in 0..2 {
            let out = Command::new(&exe)
                .args(["replay", path])
                .env("OALMC_REPLAY_CHILD", "1")
                .stderr(Stdio::null())
                .output();
            match out {
                Ok(o) => {
                    use std::os::unix::process::ExitStatusExt;
                    obs.push((
                        o.status.code(),
                        o.status.signal(),
                        String::from_utf8_lossy(&o.stdout).to_string(),
                    ));
                }
                Err(e) => {
                    eprintln!("oalmc: cannot spawn replay child: {e}");
                    return 2;
                }
            }
        }
        if obs[0] != obs[1] {
            println!("REPLAY-NONDETERMINISTIC: two replays gave different observations");
            println!("{:?}\n{:?}", obs[0], obs[1]);
            return 2;
        }
        print!("{}", obs[0].2);
        return match (obs[0].0, obs[0].1) {
            (Some(0), _) => 0,
            (Some(1), _) => 1,
            (_, Some(sig)) => {
                println!(
                    "VIOLATION property={} replay={path} (subject died with {})",
                    engine.id(),
                    signal_name(sig)
                );
                1
            }
            (c, _) => {
                println!("replay child exited with {c:?}");
                2
            }
        };
    }
    set_rlimit_as(4 << 30);
    let _ = oal_wasm::compile("");
    install_panic_hook();
    let case = body["case"].clone();
    let h = std::thread::Builder::new()
        .stack_size(8 << 20)
        .spawn({
            let case = case.clone();
            move || engine.replay(&case)
        })
        .unwrap();
    match h.join() {
        Ok(out) => match out.violation {
            Some(v) => {
                println!("VIOLATION property={} replay={path}", engine.id());
                println!("  signature: {}", v.signature);
                println!("  {}", v.summary);
                1
            }
            None => {
                println!("replay: property {} holds on this case ({})", engine.id(), out.tag);
                0
            }
        },
        Err(_) => {
            println!("replay: harness panic");
            2
        }
    }
}
