#!/bin/bash
# Offline build of everything the checks need: the model checker `oalmc` (linked against
# /repo's crates with feature `verif`) and the production binaries oal-cli / oal-lsp.
set -e
cd /verif
./check --build-only
/verif/.build/release/oalmc list
